#!/usr/bin/env python3
"""Confirms a seeded change (patch + demo) in a scratch worktree and runs the registered checks against it.
usage: eval_mutant.py <property> <mutant-dir> [--checks C01,C05] [--skip-confirm]"""
import sys, os, re, subprocess, json, shutil, glob
prop, mdir = sys.argv[1], sys.argv[2]
checks = [prop]
skip = '--skip-confirm' in sys.argv
for i,a in enumerate(sys.argv):
    if a == '--checks': checks = sys.argv[i+1].split(',')
ENV = dict(os.environ, GOFLAGS='-mod=mod', GOPROXY='off')
def sh(cmd, cwd=None, timeout=1800):
    p = subprocess.run(cmd, shell=True, cwd=cwd, env=ENV, capture_output=True, text=True, timeout=timeout)
    return p.returncode, p.stdout + p.stderr
patch = os.path.join(mdir, 'patch.adapted.diff') if os.path.exists(os.path.join(mdir, 'patch.adapted.diff')) else os.path.join(mdir, 'patch.diff')
demos = glob.glob(os.path.join(mdir, '*_test.go'))
res = {'property': prop, 'dir': mdir}
touched = sorted(set(re.findall(r'^\+\+\+ b/(\S+)', open(patch).read(), re.M)))
res['touched'] = touched
pkgs = sorted(set('./' + os.path.dirname(f) if os.path.dirname(f) else '.' for f in touched))
def demo_pkg(demo):
    m = re.search(r'^package (\w+)', open(demo).read(), re.M)
    name = m.group(1)
    if name == 'pdf': return '.'
    for p in pkgs:
        if os.path.basename(p) == name: return p
    # search repo
    rc,out = sh("grep -rl --include=*.go '^package %s$' . | head -1" % name, cwd='/repo')
    return './' + os.path.dirname(out.strip()) if out.strip() else '.'
if not skip:
    wt = '/tmp/mw_' + prop + '_' + os.path.basename(mdir.rstrip('/'))
    sh('git -C /repo worktree remove --force %s' % wt)
    rc,out = sh('git -C /repo worktree add -q --detach %s HEAD' % wt)
    try:
        rc,out = sh('git apply %s' % patch, cwd=wt)
        res['applies'] = rc == 0
        if rc != 0:
            res['apply_output'] = out[-500:]
        else:
            rc,out = sh('go build . ' + ' '.join(pkgs), cwd=wt)
            res['builds'] = rc == 0
            rc,out = sh('go test -vet=off -count=1 . ' + ' '.join(p for p in pkgs if p != '.'), cwd=wt)
            res['existing_tests_pass_with_patch'] = rc == 0
            if rc != 0: res['existing_tests_output'] = out[-800:]
            for d in demos:
                dp = demo_pkg(d)
                names = re.findall(r'^func (Test\w+)', open(d).read(), re.M)
                tgt = os.path.join(wt, dp, 'zz_demo_' + os.path.basename(d))
                shutil.copy(d, tgt)
                rc,out = sh("go test -vet=off -count=1 -timeout 600s -run '^(%s)$' %s" % ('|'.join(names), dp), cwd=wt)
                res['demo_fails_with_patch'] = rc != 0
                sh('git apply -R %s' % patch, cwd=wt)
                rc,out = sh("go test -vet=off -count=1 -timeout 600s -run '^(%s)$' %s" % ('|'.join(names), dp), cwd=wt)
                res['demo_passes_without_patch'] = rc == 0
                if rc != 0: res['demo_clean_output'] = out[-600:]
                sh('git apply %s' % patch, cwd=wt)
                os.remove(tgt)
    finally:
        sh('git -C /repo worktree remove --force %s' % wt)
# run the checks against a scratch worktree of /repo (HEAD) with the patch applied;
# /repo itself and /verif/evidence stay untouched (GOCV_REPO / GOCV_OUT)
tag = prop + '_' + os.path.basename(mdir.rstrip('/'))
ev = '/tmp/ev_' + tag
outdir = '/tmp/evout_' + tag
sh('git -C /repo worktree remove --force %s' % ev)
shutil.rmtree(outdir, ignore_errors=True)
rc,out = sh('git -C /repo worktree add -q --detach %s HEAD' % ev)
res['checks'] = {}
try:
    rc,out = sh('git apply %s' % patch, cwd=ev)
    if rc == 0:
        for c in checks:
            env2 = 'GOCV_REPO=%s GOCV_OUT=%s ' % (ev, outdir)
            rc,out = sh(env2 + '/verif/bin/gocv check --property %s --tier quick' % c, cwd='/verif', timeout=3000)
            lines = [l for l in out.split('\n') if l.startswith('VIOLATION') or l.startswith('  failed') or l.startswith('MACHINERY') or l.startswith('KNOWN')]
            res['checks'][c] = {'exit': rc, 'lines': [l[:400] for l in lines[:12]]}
    else:
        res['checks_apply_output'] = out[-300:]
finally:
    sh('git -C /repo worktree remove --force %s' % ev)
    shutil.rmtree(outdir, ignore_errors=True)
print(json.dumps(res, indent=1))
