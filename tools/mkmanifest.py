#!/usr/bin/env python3
"""Regenerates /verif/MANIFEST.json from tools/claims.json (what is claimed, with which words)."""
import json
props=[json.loads(l) for l in open('/verif/properties.jsonl')]
claims=json.load(open('/verif/tools/claims.json'))
checks=[]; na=[]
for p in props:
    c=claims.get(p['id'])
    if c and c.get('claimed'):
        checks.append({
          "property_id":p['id'],
          "quick_cmd":f"/verif/bin/gocv check --property {p['id']} --tier quick",
          "thorough_cmd":f"/verif/bin/gocv check --property {p['id']} --tier thorough",
          "evidence_file":f"/verif/evidence/{p['id']}.json",
          "replay_cmd_template":"/verif/bin/gocv replay {path}",
          "engine":"gocv",
          "level_claimed":{"category":"proof","text":c['text'],"design_ref":"DESIGN.md section 7, "+p['id']},
          "level_note":c['note'],
          "technique":c.get('technique',"contract-based deductive verification: weakest-precondition VCs over go/ssa with //@ contracts, discharged by z3/cvc5")})
    else:
        na.append({"property_id":p['id'],"reason":(c or {}).get('reason',"not brought under contract (see DESIGN.md)")})
commits=[l.strip() for l in open('/verif/tools/hook-commits.txt')] if __import__('os').path.exists('/verif/tools/hook-commits.txt') else []
m={"version":1,
 "setup_cmd":"cd /verif/engine && PATH=/opt/veriftools/go1.26.8/bin:$PATH GOTOOLCHAIN=local GOPROXY=off GOFLAGS=-mod=vendor go build -o /verif/bin/gocv ./cmd/gocv",
 "hooks":{"guard":"verif","enable":"contract files zz_contracts_verif.go are comment-only and carry //go:build verif; gocv loads /repo with -tags=verif","baseline_off_cmd":json.load(open('/root/.vp/BASELINE.json'))['cmd'],"source_commits":commits,"add_only":True},
 "engines":[{"name":"gocv","path":"/verif/engine","serves_properties":[c['property_id'] for c in checks],"kind_free_text":"VC generator over go/ssa naive form + contract language (//@ comments), obligations raced on z3 4.8.12 / z3 5.1.0 / cvc5 1.0.3; bounded stand-ins are in-package Go tests run through go test -overlay"}],
 "checks":checks,"not_applicable":na,
 "notes":"Each check rebuilds its obligations from /repo's working tree, compares with the committed ledger (/verif/ledger/<id>.json) and runs the labelled bounded stand-ins of /verif/harness. See DESIGN.md."}
json.dump(m,open('/verif/MANIFEST.json','w'),indent=1)
print(len(checks),'claimed,',len(na),'not applicable')
