#!/usr/bin/env python3
"""Runs one registered harness (by name) against a repository tree, the way `gocv check` does.
usage: run-harness.py <harness-name> [repo-dir] [--tier quick|thorough] [--seed N] [--run REGEX]
Prints the tail of the go test output, the B2-FAIL lines and the exit status of go test."""
import sys, os, json, subprocess, tempfile
name = sys.argv[1]
repo = '/repo'
tier, seed, run = 'quick', '1', None
args = sys.argv[2:]
i = 0
while i < len(args):
    if args[i] == '--tier': tier = args[i+1]; i += 2
    elif args[i] == '--seed': seed = args[i+1]; i += 2
    elif args[i] == '--run': run = args[i+1]; i += 2
    else: repo = args[i]; i += 1
hs = json.load(open('/verif/harness/harnesses.json'))
h = [x for x in hs if x['name'] == name]
if not h:
    print('unknown harness; names:', ' '.join(x['name'] for x in hs)); sys.exit(2)
h = h[0]
ov = {'Replace': {os.path.join(repo, h['pkg'], 'zz_verif_' + os.path.basename(f)): os.path.join('/verif/harness', f) for f in h['files']}}
with tempfile.NamedTemporaryFile('w', suffix='.json', delete=False) as t:
    json.dump(ov, t)
env = dict(os.environ, GOFLAGS='-mod=mod', GOPROXY='off', VERIF_TIER=tier, VERIF_SEED=seed)
cmd = ['go', 'test', '-overlay', t.name, '-vet=off', '-count=1', '-timeout', h.get('timeout', '900s'), '-run', run or h['run'], '-v', './' + h['pkg']]
p = subprocess.run(cmd, cwd=repo, env=env, capture_output=True, text=True)
out = p.stdout + p.stderr
os.unlink(t.name)
lines = out.split('\n')
fails = [l for l in lines if 'B2-FAIL' in l]
cases = [l for l in lines if 'B2-CASES' in l]
print('\n'.join(lines[-25:]))
print('---- %d B2-FAIL lines (first 10):' % len(fails))
for l in fails[:10]: print(l[:300])
print('---- B2-CASES:', ' | '.join(c.strip()[:80] for c in cases[:6]))
print('exit', p.returncode)
sys.exit(p.returncode)
