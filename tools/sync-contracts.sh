#!/bin/sh
# Copies the contract files (comment-only, //go:build verif) from /verif/contracts into /repo.
# /verif/contracts mirrors the repository tree.
set -e
cd /verif/contracts
find . -name 'zz_contracts_verif.go' | while read f; do
  mkdir -p "/repo/$(dirname "$f")"
  cp "$f" "/repo/$f"
done
echo "synced"
