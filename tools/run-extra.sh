#!/bin/sh
# Runs the labelled bounded harnesses of properties that are NOT claimed in MANIFEST.json
# (C16, C17): they are kept as regression aids, their verdicts are not part of any claim.
cd /verif
for p in C16 C17; do /verif/bin/gocv check --property $p --tier ${1:-quick} 2>&1 | tail -3; done
