#!/usr/bin/env python3
"""Prints the markdown table of DESIGN.md section 0.7 from /verif/seeded/*/meta.json."""
import json, glob, os, re
rows = []
stats = []
for f in sorted(glob.glob('/verif/seeded/*/meta.json')):
    m = json.load(open(f))
    runs = m['check_runs']
    first = runs.get('first') if m['change'].split('-')[1][0] == 'p' else next((runs[k] for k in ('first', 'second', 'final') if runs.get(k)), None)
    last = next((runs[k] for k in ('final', 'second', 'first') if runs.get(k)), None)
    def v(r): return '—' if r is None else ('caught' if r['caught'] else 'missed')
    names = []
    for b in (last['by'] if last and last['caught'] else []):
        if b.startswith('obligation '):
            n = re.split(r'/(?:pre/|post/|safety/|inv-|frame|variant/|cover/|canary|overflow|unbound|outside|lemma)', b[len('obligation '):])[0]
            n = re.sub(r'^(\(\*?)[^()]*/', r'\1', n)      # (*a/b/pkg.T).m -> (*pkg.T).m
            if not n.startswith('('):
                n = n.split('/')[-1]
            b = 'contract of ' + n
        if b not in names:
            names.append(b)
    by = ', '.join(names)
    conf = m['confirmed']
    ok = conf['existing_tests_pass_with_patch'] and conf['demo_fails_with_patch'] and conf['demo_passes_without_patch']
    rn = 3 if '-p' in m['change'] else 2 if '-n' in m['change'] else 1
    stats.append((rn, bool(first and first['caught']), bool(last and last['caught']), rn == 3 and runs.get('first') is None))
    rows.append('| %s | %s | %s | %s | %s | %s |' % (m['change'], m['needs_to_manifest'].replace('|', '/'), 'yes' if ok else 'no (see meta.json)', v(first), v(last), by.replace('|', '/')))
def rnd(c): return 2 if '-n' in c else 1
for r in (1, 2, 3):
    rs = [x for x in stats if x[0] == r]
    if rs:
        ne = sum(1 for x in rs if x[3])
        print('Round %d: %d changes; caught in the first run %d%s; caught now %d.' % (r, len(rs), sum(1 for x in rs if x[1] and not x[3]), (' (of the %d evaluated in the first run)' % (len(rs) - ne)) if ne else '', sum(1 for x in rs if x[2])))
print()
print('| change | what it is and what it needs to manifest | confirmed | first run | now | caught by |')
print('|---|---|---|---|---|---|')
print('\n'.join(rows))
