#!/usr/bin/env python3
"""Rebuilds section 0 of DESIGN.md from tools/design_section0.md + tools/design_section0b.md and the seeded table."""
import subprocess, re
d = open('/verif/DESIGN.md').read()
a = open('/verif/tools/design_section0.md').read().rstrip() + '\n\n'
b = open('/verif/tools/design_section0b.md').read()
table = subprocess.run(['python3', '/verif/tools/seeded_table.py'], capture_output=True, text=True).stdout
b = b.replace('@SEEDED_TABLE@', table.rstrip())
sec = '<!-- SECTION0-BEGIN -->\n' + a + b.rstrip() + '\n<!-- SECTION0-END -->\n'
if '<!-- SECTION0-BEGIN -->' in d:
    d = re.sub(r'<!-- SECTION0-BEGIN -->.*?<!-- SECTION0-END -->\n', lambda m: sec, d, flags=re.S)
else:
    i = d.index('## 1. What is being built')
    d = d[:i] + sec + '\n\n' + d[i:]
open('/verif/DESIGN.md', 'w').write(d)
print('section 0:', len(sec), 'bytes')
