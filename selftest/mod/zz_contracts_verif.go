//go:build verif

package selftest

//@ package selftest
//@ spec func isHex(c int) bool = ('0' <= c && c <= '9') || ('A' <= c && c <= 'F') || ('a' <= c && c <= 'f')
//@ spec func hexVal(c int) int = c <= '9' ? c - '0' : c <= 'F' ? c - 'A' + 10 : c - 'a' + 10
//
//@ func hexDigit
//@   ensures isHex(c) ==> \result == hexVal(c)
//@   ensures !isHex(c) ==> \result == 255
//
//@ func sum
//@   ensures 0 <= \result && \result <= len(a)
//@   loop 1: invariant 0 <= i && i <= len(a) && 0 <= s && s <= i
//@   loop 1: decreases len(a) - i
//
//@ func maxIndex
//@   requires len(a) > 0
//@   ensures 0 <= \result && \result < len(a)
//@   ensures forall k in 0..len(a) :: a[k] <= a[\result]
//@   loop 1: invariant 1 <= i && i <= len(a) && 0 <= best && best < i
//@   loop 1: invariant forall k in 0..i :: a[k] <= a[best]
//@   loop 1: decreases len(a) - i
//
//@ func (*buf).next (b) (c, ok)
//@   requires 0 <= b.pos && b.pos <= b.used && b.used <= len(b.data)
//@   assigns b.pos
//@   ensures ok ==> b.pos == old(b.pos) + 1 && c == b.data[old(b.pos)]
//@   ensures !ok ==> b.pos == old(b.pos)
//@   ensures 0 <= b.pos && b.pos <= b.used
//
//@ func fill
//@   assigns elems(p)
//@   ensures forall k in 0..len(p) :: p[k] == v
//@   loop 1: invariant forall k in 0..\done :: p[k] == v
//
//@ func badIndex
//@   ensures true
//
//@ func appendTwo (a, x) (r)
//@   ensures len(r) == len(a) + 2
//@   ensures r[len(a)] == x
//@   ensures forall k in 0..len(a) :: r[k] == old(a[k])
//
// ---- late features (see DESIGN 0.3): ghost closed / \local_, variant, allocation counter,
// ---- invariants of partial contracts.  The *Bad twins must fail.
//@ func (closer).Close (c) (err)
//@   trusted
//@   assigns c.closed
//@   ensures c.closed
//
//@ func (*opener).open (o) (c, err)
//@   trusted
//@   assigns nothing
//@   ensures err != nil ==> c == nil
//@   ensures err == nil ==> c != nil
//
//@ func closesGood (o, fail) (err)
//@   requires o != nil
//@   assigns nothing
//@   ensures \local_c != nil ==> \local_c.closed
//
//@ func closesBad (o, fail) (err)
//@   requires o != nil
//@   assigns nothing
//@   ensures \local_c != nil ==> \local_c.closed
//
//@ func depthGood (d) (n)
//@   requires 0 <= d && d <= 10
//@   variant 10 - d
//@   ensures n >= 0
//
//@ func depthBad (d, flip) (n)
//@   requires 0 <= d && d <= 10
//@   variant 10 - d
//@   ensures n >= 0
//
//@ func (*budget).charge (b, n) (ok)
//@   requires b != nil
//@   assigns b.remain
//@   ensures ok ==> n >= 0 && b.remain == old(b.remain) - n
//@   ensures !ok ==> b.remain == old(b.remain)
//
//@ func allocGood (b, w, h) (p)
//@   requires b != nil
//@   assigns b.remain
//@   ensures nil.allocd - old(nil.allocd) <= old(b.remain) - b.remain
//
//@ func allocBad (b, w, h) (p)
//@   requires b != nil
//@   assigns b.remain
//@   ensures nil.allocd - old(nil.allocd) <= old(b.remain) - b.remain
//
//@ func partialBad (a) (n)
//@   claims post/
//@   ensures n >= 0
//@   loop 1: invariant n >= 6
