package selftest

func hexDigit(c byte) byte {
	switch {
	case c >= '0' && c <= '9':
		return c - '0'
	case c >= 'A' && c <= 'F':
		return c - 'A' + 10
	case c >= 'a' && c <= 'f':
		return c - 'a' + 10
	}
	return 255
}

func sum(a []int) int {
	s := 0
	for i := 0; i < len(a); i++ {
		s += a[i] & 1
	}
	return s
}

func maxIndex(a []uint32) int {
	best := 0
	for i := 1; i < len(a); i++ {
		if a[i] > a[best] {
			best = i
		}
	}
	return best
}

type buf struct {
	data []byte
	pos  int
	used int
}

func (b *buf) next() (byte, bool) {
	if b.pos >= b.used {
		return 0, false
	}
	c := b.data[b.pos]
	b.pos++
	return c, true
}

func fill(p []byte, v byte) {
	for i := range p {
		p[i] = v
	}
}

func badIndex(a []byte, i int) byte {
	return a[i]
}

func appendTwo(a []byte, x byte) []byte {
	a = append(a, x)
	a = append(a, x+1)
	return a
}
