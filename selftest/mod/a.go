package selftest

func hexDigit(c byte) byte {
	switch {
	case c >= '0' && c <= '9':
		return c - '0'
	case c >= 'A' && c <= 'F':
		return c - 'A' + 10
	case c >= 'a' && c <= 'f':
		return c - 'a' + 10
	}
	return 255
}

func sum(a []int) int {
	s := 0
	for i := 0; i < len(a); i++ {
		s += a[i] & 1
	}
	return s
}

func maxIndex(a []uint32) int {
	best := 0
	for i := 1; i < len(a); i++ {
		if a[i] > a[best] {
			best = i
		}
	}
	return best
}

type buf struct {
	data []byte
	pos  int
	used int
}

func (b *buf) next() (byte, bool) {
	if b.pos >= b.used {
		return 0, false
	}
	c := b.data[b.pos]
	b.pos++
	return c, true
}

func fill(p []byte, v byte) {
	for i := range p {
		p[i] = v
	}
}

func badIndex(a []byte, i int) byte {
	return a[i]
}

func appendTwo(a []byte, x byte) []byte {
	a = append(a, x)
	a = append(a, x+1)
	return a
}

// ---- features added late: each has a correct function and a deliberately broken twin ----

type closer interface{ Close() error }

type opener struct{ c closer }

func (o *opener) open() (closer, error) { return o.c, nil }

// closesGood closes what it opened on every path.
func closesGood(o *opener, fail bool) error {
	c, err := o.open()
	if err != nil {
		return err
	}
	defer c.Close()
	if fail {
		return errFail
	}
	return nil
}

// closesBad forgets to close on the failure path.
func closesBad(o *opener, fail bool) error {
	c, err := o.open()
	if err != nil {
		return err
	}
	if fail {
		return errFail
	}
	return c.Close()
}

var errFail = &myErr{}

type myErr struct{}

func (*myErr) Error() string { return "fail" }

// depthGood recurses with a strictly increasing depth below a cap.
func depthGood(d int) int {
	if d >= 10 {
		return 0
	}
	return depthGood(d+1) + 1
}

// depthBad does not advance the depth on one path.
func depthBad(d int, flip bool) int {
	if d >= 10 {
		return 0
	}
	if flip {
		return depthBad(d, false)
	}
	return depthBad(d+1, flip) + 1
}

type budget struct{ remain int }

func (b *budget) charge(n int) bool {
	if n < 0 || n > b.remain {
		return false
	}
	b.remain -= n
	return true
}

// allocGood charges what it allocates.
func allocGood(b *budget, w, h int) []byte {
	if w < 0 || h < 0 || w > 1000 || h > 1000 || !b.charge(w*h) {
		return nil
	}
	return make([]byte, w*h)
}

// allocBad charges one row only.
func allocBad(b *budget, w, h int) []byte {
	if w < 0 || h < 0 || w > 1000 || h > 1000 || !b.charge(w) {
		return nil
	}
	return make([]byte, w*h)
}

// partialBad: a partial contract whose loop invariant does not hold on entry.
func partialBad(a []int) int {
	n := 5
	for i := range a {
		n += a[i] & 1
	}
	return n
}
